package main

import (
	"fmt"
	"go/ast"
	"go/token"
	"go/types"
	"sort"
	"strings"
)

func init() { register("C12", propC12) }

func propC12(r *Report, tier string) {
	r.Explanation = "Structural necessary conditions of 'needed segment files are never removed; unneeded files do not accumulate': (a) K7 the only deletion of files in package scorch is the purger's os.Remove (builder/trainer sites allow-listed by reason); (b) that Remove is control-dependent on all of: .zap extension, name absent from the set loaded from EVERY bolt snapshot, not ineligibleForRemoval, copyScheduled <= 0, under rootLock; (c) bolt snapshots are removed before zap files, only non-protected epochs, in one write transaction; (d) mark/un-mark discipline of merge products and inputs, un-mark of persisted files only after the commit that names them; (e) copyScheduled increments (CopyReader, write-locked, every root segment) are matched by stored decrements in CloseCopyReader over the same file-name function; (f) the purger is reachable only from the persister goroutine and the open phase; (g) snapshot references taken by internal users are released on all exits (K1 AddRef/DecRef). (h) K1 when a deferred clean-up decides on a local error variable, every later return hands back that variable or nil; (i) the introducers queue a file for un-marking only on paths that do not carry its segment into the new root."
	r.NotCovered = "that a file named by bolt physically exists at every instant of every schedule; quiescent directory contents; open file descriptor counts"
	ruleWhoMayRemoveFiles(r, "K7-who-may-remove-files")
	rulePurgerGuards(r, "K5-purger-guards")
	rulePurgeOrderAndProtection(r, "K5-purge-bolt-first")
	ruleMarkBeforeCreate(r, "K5-mark-before-create")
	ruleUnmarkAfterCommit(r, "K5-unmark-after-commit")
	ruleCopyScheduledPairing(r, "K12-copy-scheduled-pairing")
	rulePurgerCallers(r, "K7-purger-callers")
	ruleRefPairing(r, "K1-ref-pairing")
	ruleOpenedCollectionSwept(r, "K1-opened-collection-swept", "index/scorch")
	ruleSegmentRefIffCarried(r, "K1-segment-ref-iff-carried", findIntroducers(r.P))
	ruleDeferObservedErr(r, "K1-defer-observed-error", "index/scorch", "index/scorch/mergeplan", "index/upsidedown", "index/upsidedown/store/boltdb", "index/upsidedown/store/moss", "index/upsidedown/store/gtreap", "")
	r.Floor("K7-who-may-remove-files", 3)
	r.Floor("K5-purger-guards", 6)
	r.Floor("K5-purge-bolt-first", 4)
	r.Floor("K5-mark-before-create", 6)
	r.Floor("K5-unmark-after-commit", 12)
	r.Floor("K1-defer-observed-error", 6)
	r.Floor("K12-copy-scheduled-pairing", 5)
	r.Floor("K7-purger-callers", 2)
	r.Floor("K1-ref-pairing", 8)
}

func ruleWhoMayRemoveFiles(r *Report, rule string) {
	allow := map[string]string{
		"index/scorch.(*Builder).doMerge":              "offline builder removes merged temp segments inside its private build directory",
		"index/scorch.(*Builder).Close":                "offline builder moves its final segment into place and removes its private build directory",
		"index/scorch.(*vectorTrainer).trainLoop":      "trainer removes its own '<trained index>temp' scratch file, never a segment",
		"index/scorch.moveFile":                        "trainer helper renaming the trained index file",
		"index/scorch.(*vectorTrainer).copyFileLOCKED": "trainer file copy",
	}
	purgerSeen := false
	for _, fi := range r.P.funcsInPkg(scorchPkg) {
		info := fi.Pkg.TypesInfo
		for _, c := range callsMatching(info, fi.Decl.Body, calleeIs("os.Remove", "os.RemoveAll", "os.Rename", "syscall.Unlink", "os.Truncate")) {
			r.Fn(fi)
			name := callee(info, c).Name()
			if fi.Name == "index/scorch.(*Scorch).removeOldZapFiles" && name == "Remove" {
				purgerSeen = true
				r.Ob(rule, fi.Name+"/os.Remove", c.Pos(), true, "the purger's single removal site")
				continue
			}
			if why, ok := allow[fi.Name]; ok {
				r.Allow(rule, fi.Name+"/os."+name, c.Pos(), why)
				continue
			}
			// trainer files (vector build tag not analysed) live in train_*.go; anything else is a new remover
			if strings.HasPrefix(baseFile(r.P, c.Pos()), "train_") {
				r.Allow(rule, fi.Name+"/os."+name, c.Pos(), "trained-index file handling (train_*.go), not a segment file")
				continue
			}
			r.Ob(rule, fi.Name+"/os."+name, c.Pos(), false, "a second site deletes/renames files in the index directory: only the purger (removeOldZapFiles) may, because only it checks bolt snapshots, ineligible marks and scheduled copies")
		}
	}
	if !purgerSeen {
		undecidedf("purger os.Remove site not found")
	}
}

func baseFile(p *Prog, pos token.Pos) string {
	f := p.Fset.Position(pos).Filename
	if i := strings.LastIndex(f, "/"); i >= 0 {
		return f[i+1:]
	}
	return f
}

func rulePurgerGuards(r *Report, rule string) {
	p := r.P
	fi := p.MustFunc("index/scorch.(*Scorch).removeOldZapFiles")
	r.Fn(fi)
	info := fi.Pkg.TypesInfo
	g := buildCFG(info, fi.Decl.Body)
	rm := callsMatching(info, fi.Decl.Body, calleeIs("os.Remove"))
	if len(rm) != 1 {
		undecidedf("%s: expected one os.Remove", fi.Name)
	}
	c := rm[0]
	facts := g.GuardsOf(c)
	d := newDeps(info, fi.Decl.Body)
	// the name variable: the identifier used in the removed path that also indexes the maps
	var liveOK, inelOK, copyOK, extOK bool
	var nameObj types.Object
	for _, f := range facts {
		e := ast.Unparen(f.Expr)
		switch x := e.(type) {
		case *ast.Ident:
			// `exists` from comma-ok lookup in the live-names map
			if !f.Truth {
				ast.Inspect(fi.Decl.Body, func(n ast.Node) bool {
					as, ok := n.(*ast.AssignStmt)
					if !ok || len(as.Lhs) != 2 || len(as.Rhs) != 1 || objOf(info, as.Lhs[1]) != info.ObjectOf(x) {
						return true
					}
					if ix, ok := ast.Unparen(as.Rhs[0]).(*ast.IndexExpr); ok {
						sl := d.SliceOfExpr(ix.X)
						if sl["call:"+blevePath+"/index/scorch.(*Scorch).loadZapFileNames"] {
							liveOK = true
							nameObj = objOf(info, ix.Index)
						}
					}
					return true
				})
			}
		case *ast.IndexExpr:
			if isField(info, x.X, "Scorch", "ineligibleForRemoval") && !f.Truth {
				inelOK = nameObj == nil || objOf(info, x.Index) == nameObj
			}
		case *ast.BinaryExpr:
			if ix, ok := ast.Unparen(x.X).(*ast.IndexExpr); ok && isField(info, ix.X, "Scorch", "copyScheduled") {
				if (x.Op == token.LEQ && exprStr(x.Y) == "0" && f.Truth) || (x.Op == token.GTR && exprStr(x.Y) == "0" && !f.Truth) ||
					(x.Op == token.EQL && exprStr(x.Y) == "0" && f.Truth) || (x.Op == token.LSS && exprStr(x.Y) == "1" && f.Truth) {
					copyOK = true
				}
			}
			if x.Op == token.EQL && f.Truth && strings.Contains(exprStr(x), "\".zap\"") {
				extOK = true
			}
		}
	}
	fs := factsString(facts)
	r.Ob(rule, fi.Name+"/remove-only-if-in-no-bolt-snapshot", c.Pos(), liveOK, "os.Remove only for names absent from the set loaded from the bolt snapshots (guards: "+fs+")")
	r.Ob(rule, fi.Name+"/remove-only-if-not-ineligible", c.Pos(), inelOK, "os.Remove only when !ineligibleForRemoval[name] (files being produced by a merge / not yet committed)")
	r.Ob(rule, fi.Name+"/remove-only-if-no-copy-scheduled", c.Pos(), copyOK, "os.Remove only when copyScheduled[name] <= 0 (online backups)")
	r.Ob(rule, fi.Name+"/remove-only-zap-files", c.Pos(), extOK, "only *.zap files are candidates (root.bolt and index_meta.json are never removed)")
	r.Ob(rule, fi.Name+"/remove-under-rootLock", c.Pos(), lockHeldAt(g, info, c, "rootLock", "R"), "the three maps are consulted and the file removed with rootLock held")
	// removed path is built from the tested name
	if nameObj != nil {
		r.Ob(rule, fi.Name+"/removes-the-tested-name", c.Pos(), usesObj(info, c.Args[0], nameObj) || d.SliceOfExpr(c.Args[0])[varKeyOf(nameObj.(*types.Var))], "the path removed is built from the very name that passed the three tests (directly or through locals)")
	}
	// loadZapFileNames covers every snapshot and every segment bucket
	lf := p.MustFunc("index/scorch.(*Scorch).loadZapFileNames")
	r.Fn(lf)
	linfo := lf.Pkg.TypesInfo
	var lit *ast.FuncLit
	ast.Inspect(lf.Decl.Body, func(n ast.Node) bool {
		if l, ok := n.(*ast.FuncLit); ok && lit == nil {
			lit = l
		}
		return true
	})
	if lit == nil {
		undecidedf("%s: no View closure", lf.Name)
	}
	lg := buildCFG(linfo, lit.Body)
	nstore := 0
	ast.Inspect(lit.Body, func(n ast.Node) bool {
		as, ok := n.(*ast.AssignStmt)
		if !ok || len(as.Lhs) != 1 {
			return true
		}
		if _, isIx := ast.Unparen(as.Lhs[0]).(*ast.IndexExpr); !isIx {
			return true
		}
		nstore++
		bad := ""
		for _, f := range lg.RawGuardsOf(as) {
			if _, _, isNil := nilTest(linfo, f.Expr); isNil {
				continue
			}
			fe := resolveCopies(linfo, lit.Body, f.Expr) // a named boolean (`isInternal := ...`)
			s := exprStr(fe)
			if be, ok := ast.Unparen(fe).(*ast.BinaryExpr); ok && strings.Contains(s, "BoltInternalKey") &&
				((be.Op == token.EQL && !f.Truth) || (be.Op == token.NEQ && f.Truth)) {
				continue
			}
			bad = f.String()
		}
		r.Ob(rule, lf.Name+"/every-segment-name-recorded", as.Pos(), bad == "", "a segment file name found in a bolt snapshot is recorded unless the bucket/path is missing or it is the internal bucket ("+bad+")")
		return true
	})
	// both loops are full cursor scans First..Next with no break/return inside
	loops := 0
	full := true
	ast.Inspect(lit.Body, func(n ast.Node) bool {
		fs, ok := n.(*ast.ForStmt)
		if !ok {
			return true
		}
		loops++
		initOK := fs.Init != nil && strings.Contains(stmtRhsStr(fs.Init), ".First()")
		postOK := fs.Post != nil && strings.Contains(stmtRhsStr(fs.Post), ".Next()")
		if !initOK || !postOK {
			// while-style spelling: `k, _ := c.First(); for k != nil { ...; k, _ = c.Next() }`
			var key types.Object
			if be, isB := ast.Unparen(fs.Cond).(*ast.BinaryExpr); fs.Cond != nil && isB && be.Op == token.NEQ {
				if isNilIdent(linfo, be.Y) {
					key = objOf(linfo, be.X)
				} else if isNilIdent(linfo, be.X) {
					key = objOf(linfo, be.Y)
				}
			}
			if key != nil {
				ast.Inspect(lit.Body, func(m ast.Node) bool {
					as, ok := m.(*ast.AssignStmt)
					if !ok || len(as.Lhs) == 0 || objOf(linfo, as.Lhs[0]) != key {
						return true
					}
					inside := as.Pos() >= fs.Pos() && as.End() <= fs.End()
					if !inside && as.End() <= fs.Pos() && strings.Contains(stmtRhsStr(as), ".First()") {
						initOK = true
					}
					if inside && strings.Contains(stmtRhsStr(as), ".Next()") {
						postOK = true
						// a `continue` would skip the advance: not an early exit (it would loop forever), not our business
					}
					return true
				})
			}
		}
		if !initOK || !postOK {
			full = false
		}
		ast.Inspect(fs.Body, func(m ast.Node) bool {
			switch x := m.(type) {
			case *ast.BranchStmt:
				if x.Tok == token.BREAK || (x.Tok == token.GOTO && !gotoStaysInside(fs.Body, x)) {
					full = false
				}
			case *ast.ReturnStmt:
				full = false
			}
			return true
		})
		return true
	})
	r.Ob(rule, lf.Name+"/scans-all-snapshots-and-segments", lf.Decl.Pos(), loops == 2 && full && nstore == 1, "the live-name set is built by two complete cursor scans (all snapshots x all segment buckets) without early exit")
}

func rulePurgeOrderAndProtection(r *Report, rule string) {
	p := r.P
	fi := p.MustFunc("index/scorch.(*Scorch).removeOldData")
	r.Fn(fi)
	info := fi.Pkg.TypesInfo
	g := buildCFG(info, fi.Decl.Body)
	bolt := callsMatching(info, fi.Decl.Body, methodIs(scorchPkg, "Scorch", "removeOldBoltSnapshots"))
	zap := callsMatching(info, fi.Decl.Body, methodIs(scorchPkg, "Scorch", "removeOldZapFiles"))
	r.Ob(rule, fi.Name+"/bolt-snapshots-before-zap-files", fi.Decl.Pos(), len(bolt) == 1 && len(zap) == 1 && g.DominatesNode(bolt[0], zap[0]), "old bolt snapshots are removed before zap files are considered (a file is removable only once no bucket names it)")
	bf := p.MustFunc("index/scorch.(*Scorch).removeOldBoltSnapshots")
	r.Fn(bf)
	binfo := bf.Pkg.TypesInfo
	bg := buildCFG(binfo, bf.Decl.Body)
	d := newDeps(binfo, bf.Decl.Body)
	dels := callsMatching(binfo, bf.Decl.Body, func(f *types.Func) bool { return f.Name() == "DeleteBucket" })
	if len(dels) != 1 {
		undecidedf("%s: expected one DeleteBucket", bf.Name)
	}
	// the epochs deleted come from the list filtered against the protected set
	sl := d.SliceOfExpr(dels[0].Args[0])
	var toRemove types.Object
	for _, rs := range returnsOfRange(binfo, bf.Decl.Body) {
		if len(enclosing(rs.Body, dels[0])) > 0 {
			toRemove = objOf(binfo, rs.X)
		}
	}
	okFiltered := false
	var retained bool
	if toRemove != nil {
		ast.Inspect(bf.Decl.Body, func(n ast.Node) bool {
			as, ok := n.(*ast.AssignStmt)
			if !ok || len(as.Lhs) != 1 || len(as.Rhs) != 1 {
				return true
			}
			c, ok := as.Rhs[0].(*ast.CallExpr)
			if !ok || calleeBuiltin(binfo, c) != "append" {
				return true
			}
			facts := bg.GuardsOf(as)
			prot := func(truth bool) bool {
				for _, f := range facts {
					id, ok := ast.Unparen(f.Expr).(*ast.Ident)
					if !ok || f.Truth != truth {
						continue
					}
					found := false
					ast.Inspect(bf.Decl.Body, func(m ast.Node) bool {
						a2, ok := m.(*ast.AssignStmt)
						if ok && len(a2.Lhs) == 2 && len(a2.Rhs) == 1 && objOf(binfo, a2.Lhs[1]) == binfo.ObjectOf(id) {
							if ix, ok := ast.Unparen(a2.Rhs[0]).(*ast.IndexExpr); ok {
								s2 := d.SliceOfExpr(ix.X)
								if s2["call:"+blevePath+"/index/scorch.(*Scorch).getProtectedSnapshots"] {
									found = true
								}
							}
						}
						return true
					})
					if found {
						return true
					}
				}
				return false
			}
			if objOf(binfo, as.Lhs[0]) == toRemove && prot(false) {
				okFiltered = true
			}
			if objOf(binfo, as.Lhs[0]) != toRemove && prot(true) {
				// retained list, later stored back to eligibleForRemoval
				for _, st := range storesToField(binfo, bf.Decl.Body, "Scorch", "eligibleForRemoval") {
					if objOf(binfo, st.Rhs) == objOf(binfo, as.Lhs[0]) {
						retained = true
					}
				}
			}
			return true
		})
	}
	_ = sl
	r.Ob(rule, bf.Name+"/deletes-only-unprotected-eligible-epochs", dels[0].Pos(), okFiltered && sl["fld:Scorch.eligibleForRemoval"], "DeleteBucket is applied only to epochs taken from eligibleForRemoval that are NOT in the protected set")
	r.Ob(rule, bf.Name+"/protected-epochs-stay-eligible-later", dels[0].Pos(), retained, "protected epochs are kept in eligibleForRemoval for a later round (not forgotten, which would leak their files)")
	// one writable tx, commit deferred on success, rollback otherwise
	begins := callsMatching(binfo, bf.Decl.Body, methodIs("util", "RootBoltImpl", "Begin"))
	okTx := len(begins) == 1 && exprStr(begins[0].Args[0]) == "true" && bg.DominatesNode(begins[0], dels[0])
	commitDeferred := false
	ast.Inspect(bf.Decl.Body, func(n ast.Node) bool {
		if ds, ok := n.(*ast.DeferStmt); ok {
			hasC, hasR := false, false
			for _, c := range callsDeep(ds) {
				if f := callee(binfo, c); f != nil {
					if f.Name() == "Commit" {
						hasC = true
					}
					if f.Name() == "Rollback" {
						hasR = true
					}
				}
			}
			if hasC && hasR && len(begins) == 1 && bg.DominatesNode(begins[0], ds) && bg.DominatesNode(ds, dels[0]) {
				commitDeferred = true
			}
		}
		return true
	})
	r.Ob(rule, bf.Name+"/deletes-in-one-write-tx", dels[0].Pos(), okTx && commitDeferred, "all bucket deletions of a purge round happen inside one writable transaction whose commit/rollback is deferred")
	r.Ob(rule, bf.Name+"/eligible-list-under-rootLock", dels[0].Pos(), allUnderLock(bg, binfo, bf, "Scorch", "eligibleForRemoval", "rootLock", "W"), "eligibleForRemoval is read and replaced under rootLock (write)")
}

func returnsOfRange(info *types.Info, body ast.Node) []*ast.RangeStmt {
	var out []*ast.RangeStmt
	ast.Inspect(body, func(n ast.Node) bool {
		if rs, ok := n.(*ast.RangeStmt); ok {
			out = append(out, rs)
		}
		return true
	})
	return out
}

// allUnderLock: every selector of owner.field in the function is evaluated
// with the lock held in the given mode.
func allUnderLock(g *FCFG, info *types.Info, fi *FuncInfo, owner, field, lock, mode string) bool {
	ok := true
	n := 0
	inspectNoLit(fi.Decl.Body, func(x ast.Node) bool {
		if sel, isSel := x.(*ast.SelectorExpr); isSel && isField(info, sel, owner, field) {
			n++
			if !lockHeldAt(g, info, sel, lock, mode) {
				ok = false
			}
		}
		return true
	})
	return ok && n > 0
}

func ruleUnmarkAfterCommit(r *Report, rule string) {
	// every deletion from ineligibleForRemoval / unmark call in package scorch is in a known role
	p := r.P
	roles := map[string]string{
		"index/scorch.(*Scorch).persistSnapshotDirect":           "after Commit+Sync (checked by K5-persist-order in C03; re-checked here)",
		"index/scorch.(*Scorch).planMergeAtSnapshot":             "merger: inputs on success, product on failure/skip (K5-mark-before-create)",
		"index/scorch.(*Scorch).mergeAndPersistInMemorySegments": "in-memory merger: product on failure/skip (K5-mark-before-create)",
		"index/scorch.(*Scorch).unmarkIneligibleForRemoval":      "the locked helper itself",
		"index/scorch.(*Scorch).introduceSegment":                "introducer: files of segments that dropped out of the root with zero live docs",
		"index/scorch.(*Scorch).introduceMerge":                  "introducer: files of segments that dropped out of the root with zero live docs",
	}
	n := 0
	for _, fi := range p.funcsInPkg(scorchPkg) {
		info := fi.Pkg.TypesInfo
		var sites []*ast.CallExpr
		for _, c := range builtinCalls(info, fi.Decl.Body, "delete") {
			if len(c.Args) == 2 && isField(info, c.Args[0], "Scorch", "ineligibleForRemoval") {
				sites = append(sites, c)
			}
		}
		sites = append(sites, callsMatching(info, fi.Decl.Body, methodIs(scorchPkg, "Scorch", "unmarkIneligibleForRemoval"))...)
		for _, c := range sites {
			n++
			r.Fn(fi)
			if why, ok := roles[fi.Name]; ok {
				r.Ob(rule, fi.Name+"/unmark-site-in-known-role", c.Pos(), true, why)
			} else {
				r.Ob(rule, fi.Name+"/unmark-site-in-known-role", c.Pos(), false, "a new site clears ineligibleForRemoval marks; every such site must be tied to a commit that names the file, a failed/skipped merge, or a segment leaving the root")
			}
		}
		// introducer un-marks: only files of segments that left the root, after the swap
		if fi.Name == "index/scorch.(*Scorch).introduceSegment" || fi.Name == "index/scorch.(*Scorch).introduceMerge" {
			g := buildCFG(info, fi.Decl.Body)
			rootStores := storesToField(info, fi.Decl.Body, "Scorch", "root")
			for _, c := range callsMatching(info, fi.Decl.Body, methodIs(scorchPkg, "Scorch", "unmarkIneligibleForRemoval")) {
				ok := len(rootStores) == 1 && g.DominatesNode(rootStores[0].Stmt, c)
				r.Ob(rule, fi.Name+"/dropped-files-unmarked-after-swap", c.Pos(), ok, "files of dropped segments become removable only after the root that no longer uses them is published")
				// the un-marked names come from a local list; every append to that list is
				// exclusive (within one loop iteration) with carrying the segment into the new root
				var list types.Object
				for _, anc := range enclosing(fi.Decl.Body, c) {
					if rs, ok := anc.(*ast.RangeStmt); ok && rs.Value != nil && len(c.Args) == 1 && objOf(info, rs.Value) == objOf(info, c.Args[0]) {
						list = objOf(info, rs.X)
					}
				}
				if list == nil {
					r.Ob(rule, fi.Name+"/unmarked-names-come-from-dropped-list", c.Pos(), false, "un-mark argument is not an element of a local list of dropped files (idiom not recognised)")
					continue
				}
				var carries []ast.Node
				ast.Inspect(fi.Decl.Body, func(x ast.Node) bool {
					as, ok := x.(*ast.AssignStmt)
					if ok && len(as.Lhs) == 1 && isField(info, as.Lhs[0], "IndexSnapshot", "segment") {
						if ac, ok := as.Rhs[0].(*ast.CallExpr); ok && calleeBuiltin(info, ac) == "append" {
							carries = append(carries, as)
						}
					}
					return true
				})
				na := 0
				ast.Inspect(fi.Decl.Body, func(x ast.Node) bool {
					as, ok := x.(*ast.AssignStmt)
					if !ok || len(as.Lhs) != 1 || objOf(info, as.Lhs[0]) != list {
						return true
					}
					ac, ok := as.Rhs[0].(*ast.CallExpr)
					if !ok || calleeBuiltin(info, ac) != "append" {
						return true
					}
					na++
					excl := len(carries) > 0
					for _, cs := range carries {
						if g.ReachesFwdNode(cs, as) || g.ReachesFwdNode(as, cs) {
							excl = false
						}
					}
					r.Ob(rule, fi.Name+"/dropped-list-excludes-carried-segments", as.Pos(), excl, "a file name is queued for un-marking only on a path that does not carry that segment into the new root (same loop iteration): un-marking the file of a segment that is still in the root lets the purger delete a file no committed snapshot names yet")
					return true
				})
				if na == 0 {
					r.Ob(rule, fi.Name+"/dropped-list-excludes-carried-segments", c.Pos(), false, "no append to the dropped-files list found")
				}
			}
		}
	}
	// persister: unmark dominated by commit
	pf := p.MustFunc("index/scorch.(*Scorch).persistSnapshotDirect")
	info := pf.Pkg.TypesInfo
	g := buildCFG(info, pf.Decl.Body)
	commits := callsMatching(info, pf.Decl.Body, func(f *types.Func) bool { return f.Name() == "Commit" })
	for _, c := range builtinCalls(info, pf.Decl.Body, "delete") {
		if len(c.Args) == 2 && isField(info, c.Args[0], "Scorch", "ineligibleForRemoval") {
			r.Ob(rule, pf.Name+"/unmark-after-commit", c.Pos(), len(commits) == 1 && g.DominatesNode(commits[0], c), "the persister clears a file's mark only after the bolt commit that names the file")
			// names come from prepareBoltSnapshot's result
			d := newDeps(info, pf.Decl.Body)
			sl := d.SliceOfExpr(c.Args[1])
			r.Ob(rule, pf.Name+"/unmarks-exactly-the-committed-names", c.Pos(), sl["call:"+blevePath+"/index/scorch.prepareBoltSnapshot"], "the names un-marked are the file names written into the committed snapshot")
		}
	}
	if n < 6 {
		undecidedf("only %d un-mark sites found", n)
	}
}

func ruleCopyScheduledPairing(r *Report, rule string) {
	p := r.P
	cr := p.MustFunc("index/scorch.(*Scorch).CopyReader")
	cc := p.MustFunc("index/scorch.(*IndexSnapshot).CloseCopyReader")
	r.Fn(cr)
	r.Fn(cc)
	nameCalls := func(fi *FuncInfo, keyExpr ast.Expr) []string {
		info := fi.Pkg.TypesInfo
		d := newDeps(info, fi.Decl.Body)
		sl := d.SliceOfExpr(keyExpr)
		var out []string
		for a := range sl {
			if strings.HasPrefix(a, "call:") && (strings.HasSuffix(a, ".Base") || strings.HasSuffix(a, ".zapFileName") || strings.HasSuffix(a, ".Path")) {
				out = append(out, a)
			}
			if a == "fld:SegmentSnapshot.id" {
				out = append(out, a)
			}
		}
		sort.Strings(out)
		return out
	}
	// increments
	info := cr.Pkg.TypesInfo
	g := buildCFG(info, cr.Decl.Body)
	var incKeys []ast.Expr
	var incs []ast.Node
	ast.Inspect(cr.Decl.Body, func(n ast.Node) bool {
		s, ok := n.(*ast.IncDecStmt)
		if !ok {
			return true
		}
		ix, ok := ast.Unparen(s.X).(*ast.IndexExpr)
		if !ok || !isField(info, ix.X, "Scorch", "copyScheduled") {
			return true
		}
		incs = append(incs, s)
		incKeys = append(incKeys, ix.Index)
		r.Ob(rule, cr.Name+"/increment-is-++", s.Pos(), s.Tok == token.INC, "one increment per segment")
		r.Ob(rule, cr.Name+"/increment-under-W-lock", s.Pos(), lockHeldAt(g, info, s, "rootLock", "W"), "copyScheduled (a map) is mutated with rootLock WRITE-held; the purger reads it under the read lock")
		return true
	})
	if len(incs) == 0 {
		r.Ob(rule, cr.Name+"/one-increment-site", cr.Decl.Pos(), false, "no copyScheduled[...]++ site found")
		return
	}
	// all increments sit in ONE loop over the root's segments (range or index form), and no iteration
	// of that loop can complete - or leave the function - without executing one of them
	var loop ast.Stmt
	sameLoop := true
	for _, inc := range incs {
		var mine ast.Stmt
		for _, anc := range enclosing(cr.Decl.Body, inc) {
			switch l := anc.(type) {
			case *ast.RangeStmt:
				if isField(info, l.X, "IndexSnapshot", "segment") {
					mine = l
				}
			case *ast.ForStmt:
				if l.Cond != nil {
					ast.Inspect(l.Cond, func(y ast.Node) bool {
						if ce, ok := y.(*ast.CallExpr); ok && calleeBuiltin(info, ce) == "len" && len(ce.Args) == 1 && isField(info, ce.Args[0], "IndexSnapshot", "segment") {
							mine = l
						}
						return true
					})
				}
			}
		}
		if mine == nil || (loop != nil && loop != mine) {
			sameLoop = false
		}
		loop = mine
	}
	everyIter := false
	if sameLoop && loop != nil {
		var body *ast.BlockStmt
		switch l := loop.(type) {
		case *ast.RangeStmt:
			body = l.Body
		case *ast.ForStmt:
			body = l.Body
		}
		if body != nil && len(body.List) > 0 {
			var start ast.Node
			ast.Inspect(body, func(y ast.Node) bool {
				if start != nil || y == nil {
					return false
				}
				if _, ok := g.Locate(y); ok && y != ast.Node(body) {
					start = y
					return false
				}
				return true
			})
			everyIter = start != nil && !g.exitAvoidingAll(start, incs)
		}
	}
	r.Ob(rule, cr.Name+"/every-root-segment-scheduled", incs[0].Pos(), everyIter, "every segment of the pinned root (persisted or not) is scheduled: the increments sit in one loop over the root's segments and no iteration can end without executing one")
	nInc := len(incs)
	_ = nInc
	// root pointer, ref and increments in one W critical section
	var rootRead *ast.SelectorExpr
	for _, sel := range selsOfField(info, cr.Decl.Body, "Scorch", "root") {
		rootRead = sel
	}
	addrefs := callsMatching(info, cr.Decl.Body, methodIs(scorchPkg, "IndexSnapshot", "AddRef"))
	okSection := rootRead != nil && len(addrefs) == 1 && lockHeldAt(g, info, rootRead, "rootLock", "W") && lockHeldAt(g, info, addrefs[0], "rootLock", "W")
	r.Ob(rule, cr.Name+"/root,ref,schedule-in-one-W-section", cr.Decl.Pos(), okSection, "the root pointer is read, referenced and its files scheduled inside one rootLock write critical section (no purge can run in between)")
	// decrements
	cinfo := cc.Pkg.TypesInfo
	cg := buildCFG(cinfo, cc.Decl.Body)
	var decKey ast.Expr
	nDec := 0
	ast.Inspect(cc.Decl.Body, func(n ast.Node) bool {
		var ix *ast.IndexExpr
		var pos token.Pos
		isDec := false
		switch s := n.(type) {
		case *ast.IncDecStmt:
			if x, ok := ast.Unparen(s.X).(*ast.IndexExpr); ok && isField(cinfo, x.X, "Scorch", "copyScheduled") {
				ix, pos, isDec = x, s.Pos(), s.Tok == token.DEC
			}
		case *ast.AssignStmt:
			if len(s.Lhs) == 1 {
				if x, ok := ast.Unparen(s.Lhs[0]).(*ast.IndexExpr); ok && isField(cinfo, x.X, "Scorch", "copyScheduled") {
					ix, pos = x, s.Pos()
					isDec = s.Tok == token.SUB_ASSIGN || (s.Tok == token.ASSIGN && strings.Contains(exprStr(resolveCopies(cinfo, cc.Decl.Body, s.Rhs[0])), "- 1"))
				}
			}
		}
		if ix == nil {
			return true
		}
		nDec++
		decKey = ix.Index
		r.Ob(rule, cc.Name+"/decrement-stored-back", pos, isDec, "the scheduled-copy count is decremented IN the map (a count that is only inspected never reaches zero for overlapping backups)")
		r.Ob(rule, cc.Name+"/decrement-under-W-lock", pos, lockHeldAt(cg, cinfo, ix, "rootLock", "W"), "copyScheduled mutated with rootLock write-held")
		return true
	})
	if nDec == 0 {
		r.Ob(rule, cc.Name+"/decrement-stored-back", cc.Decl.Pos(), false, "CloseCopyReader never writes a decremented count back to copyScheduled")
		return
	}
	// delete only when count <= 0
	for _, c := range builtinCalls(cinfo, cc.Decl.Body, "delete") {
		if !isField(cinfo, c.Args[0], "Scorch", "copyScheduled") {
			continue
		}
		ok := false
		for _, f := range cg.GuardsOf(c) {
			if be, isBin := ast.Unparen(f.Expr).(*ast.BinaryExpr); isBin && f.Truth && (be.Op == token.LEQ || be.Op == token.EQL) && exprStr(be.Y) == "0" {
				cnt := ast.Unparen(resolveCopies(cinfo, cc.Decl.Body, be.X))
				if sub, isSub := cnt.(*ast.BinaryExpr); isSub && sub.Op == token.SUB && exprStr(sub.Y) == "1" {
					cnt = ast.Unparen(sub.X) // the count after the decrement, held in a local
				}
				if ix, isIx := cnt.(*ast.IndexExpr); isIx && isField(cinfo, ix.X, "Scorch", "copyScheduled") {
					ok = true
				}
			}
		}
		r.Ob(rule, cc.Name+"/entry-deleted-only-at-zero", c.Pos(), ok, "the map entry is dropped only when the stored count reached zero")
	}
	// same file-name function on both sides
	seenName := map[string]bool{}
	var a []string
	for _, k := range incKeys {
		for _, nm := range nameCalls(cr, k) {
			if !seenName[nm] {
				seenName[nm] = true
				a = append(a, nm)
			}
		}
	}
	sort.Strings(a)
	b := nameCalls(cc, decKey)
	r.Ob(rule, "CopyReader~CloseCopyReader/same-file-name-function", cc.Decl.Pos(), len(a) >= 3 && strings.Join(a, ",") == strings.Join(b, ","),
		fmt.Sprintf("both sides name a segment's file the same way (filepath.Base(Path()) for persisted, zapFileName(id) otherwise): %v vs %v", a, b))
	// the decrement loop covers every segment of the snapshot
	cover := decKey != nil && loopOverFieldAround(cinfo, cc.Decl.Body, decKey, "IndexSnapshot", "segment") != nil
	r.Ob(rule, cc.Name+"/every-segment-unscheduled", cc.Decl.Pos(), cover, "every segment of the copied snapshot is un-scheduled")
}

func rulePurgerCallers(r *Report, rule string) {
	p := r.P
	allowed := map[string]map[string]string{
		"removeOldData": {
			"index/scorch.(*Scorch).persisterLoop":                  "persister goroutine",
			"index/scorch.(*Scorch).pausePersisterForMergerCatchUp": "called from persisterLoop only",
		},
		"removeOldZapFiles": {
			"index/scorch.(*Scorch).removeOldData": "the purge round",
			"index/scorch.(*Scorch).openBolt":      "open phase, before any loop starts (C03 K5-open-phase)",
		},
		"removeOldBoltSnapshots": {
			"index/scorch.(*Scorch).removeOldData": "the purge round",
		},
		"pausePersisterForMergerCatchUp": {
			"index/scorch.(*Scorch).persisterLoop": "persister goroutine",
		},
	}
	for _, target := range []string{"removeOldData", "removeOldZapFiles", "removeOldBoltSnapshots", "pausePersisterForMergerCatchUp"} {
		tf := p.MustFunc("index/scorch.(*Scorch)." + target)
		n := 0
		for _, fi := range p.flist {
			if fi.Decl.Body == nil {
				continue
			}
			info := fi.Pkg.TypesInfo
			// calls and method values
			ast.Inspect(fi.Decl.Body, func(x ast.Node) bool {
				id, ok := x.(*ast.Ident)
				if !ok || canonObj(info.Uses[id]) != types.Object(tf.Obj) {
					return true
				}
				n++
				why, ok := allowed[target][fi.Name]
				r.Fn(fi)
				if ok {
					r.Ob(rule, fi.Name+"->"+target, id.Pos(), true, why)
				} else {
					r.Ob(rule, fi.Name+"->"+target, id.Pos(), false, "the purger is reachable from a new caller: files written by a direct persist carry no ineligible mark, which is only safe because writing, committing and purging happen on ONE goroutine (or in the single-threaded open phase)")
				}
				return true
			})
		}
		if n == 0 {
			undecidedf("no caller of %s found", target)
		}
	}
	// persisterLoop is started only by Open via `go`
	pl := p.MustFunc("index/scorch.(*Scorch).persisterLoop")
	for _, fi := range p.flist {
		if fi.Decl.Body == nil {
			continue
		}
		info := fi.Pkg.TypesInfo
		ast.Inspect(fi.Decl.Body, func(x ast.Node) bool {
			id, ok := x.(*ast.Ident)
			if !ok || canonObj(info.Uses[id]) != types.Object(pl.Obj) {
				return true
			}
			isGo := false
			for _, anc := range enclosing(fi.Decl.Body, id) {
				if _, ok := anc.(*ast.GoStmt); ok {
					isGo = true
				}
			}
			r.Ob(rule, fi.Name+"->persisterLoop", id.Pos(), isGo && fi.Name == "index/scorch.(*Scorch).Open", "the persister loop is started exactly once, as a goroutine, by Open")
			return true
		})
	}
}
