#!/bin/sh
# Build the static analyzer offline from files on disk only.
set -e
cd "$(dirname "$0")"
mkdir -p bin/gobin evidence
ln -sf "$(command -v go1.26.8)" bin/gobin/go
export PATH="$PWD/bin/gobin:$PATH" GOFLAGS=-mod=mod GOPROXY=off GOSUMDB=off GOTOOLCHAIN=local GOWORK=off
cd analyzer
go build -o ../bin/bleveverif .
echo "built $(cd .. && pwd)/bin/bleveverif with $(go version)"
