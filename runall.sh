#!/bin/sh
# Runs every claimed check (quick tier) against /repo and reports exit codes.
cd "$(dirname "$0")"
rc=0
for p in $(python3 -c "import json;print(' '.join(sorted(json.load(open('claims.json'))['claimed'])))"); do
  out=$(./check.sh $p "${1:-quick}" 2>&1); c=$?
  echo "$p exit=$c $(echo "$out" | grep -E '^property=' | head -1)"
  [ $c -ne 0 ] && { echo "$out" | grep -E "violated|VIOLATION|UNDECIDED" | head -5; rc=1; }
done
exit $rc
